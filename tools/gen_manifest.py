#!/usr/bin/env python3
"""Generates /verif/MANIFEST.json from the table below (kept in one place so it is always valid)."""
import json, os, sys

VERIF = os.path.dirname(os.path.dirname(os.path.abspath(__file__)))

TB = ('clang 14 front end and record layout (cfacts works on the type-checked AST of every library TU with the '
      'flags of the regenerated compile database); Linux/SysV build with default SAFE_DATA/SAFE_PARAM/SAFE_LOOKUP; '
      'reasoned vocabularies in the rule files are part of the checker')
TB_ASM = TB + ('; nasm + objdump agree on instruction boundaries for code reached from function symbols; no '
               'self-modifying code; stores through non-stack pointers do not alias the function\'s own frame; '
               'avx2_t4 assembly cannot be assembled with the installed nasm and is out of scope')

CHECKS = {
    'C17': dict(
        technique='static analysis: AST inventory of mutable globals + writer/escape classification; who-may-call rule for the errno accessor; ELF section inventory',
        text='Decides that the library owns no mutable state shared between managers beyond a reasoned allow-list: '
             'every non-const global / function-local static in every library TU and every writable section of every '
             'assembled object is enumerated; each write or address-escape must come from an allow-listed function; '
             'manager errors must be stored in the manager (not only the process-wide mirror); no library function decides anything on '
             'imb_get_errno(), whose answer for a manager with status 0 is the process-wide code (who-may-call rule; found K14). Data races on memory '
             'the caller shares between managers are not decided.',
        design='§3 C17', note=TB_ASM),
}

CHECKS['C14'] = dict(
    technique='static analysis: AST dataflow over every assignment into IMB_JOB storage; CFG must-precede rules for errno reset; switch exhaustiveness',
    text='Decides, for all C code of all nine variant TUs and the common TUs, that library code writes only library-owned '
         'fields of a caller-owned job (status, the documented CMAC bit-length scratch, fields declared reserved), that status '
         'only ever receives IMB_STATUS enumerators or stage bits (INVALID_ARGS only on validation-failure paths), that every C '
         'handler installed in a manager slot resets the manager error code before any other effect, that errors are recorded in '
         'the manager in scope, and that error-string lookup is total. Not decided: that assembly kernels reached through untyped '
         'pointers leave the descriptor alone (the typed object-level rule covers functions whose prototype has an IMB_JOB*).',
    design='§3 C14', note=TB)

CHECKS['C12'] = dict(
    technique='static analysis: guard catalogue from the clang CFG (canonicalised conditions, switch-case contexts), dataflow on error-set state, dominance/reachability rules for validation gating, baseline comparison of guards',
    text='Decides, on the type-checked CFG of every library TU: each validator return value agrees with whether an error code was set '
         'on every path; each guard reports the error code of the field it tests; validators are pure (job untouched); with checking on, '
         'no processing call is reachable from a rejected job in the job API, the asynchronous burst API and every synchronous burst helper, '
         'the rejected job gets exactly INVALID_ARGS, and validation loops cover all jobs; table indexes are bounded; NULL checks precede use; '
         'and every one of the ~5800 (function, mode/algorithm, condition, error) guard instances confirmed on the reference tree is still '
         'present (a dropped or weakened guard is reported with the mode it affects). Not decided: completeness against the prose '
         'documentation, acceptance of every documented-valid job, buffers untouched by asm direct-API functions.',
    design='§3 C12', note=TB + '; the guard baseline imbv/data/guards_baseline.json holds semantic tuples (no source text or positions) taken from the reference tree after the fix: commits')

CHECKS['C20'] = dict(
    technique='static analysis: CFG must-reach / dropped-result / dominance rules over self_test.c and the init functions; paths from the recorded self-test error to the returns (no error-code reset in between)',
    text='Decides on the CFG of self_test.c and the public init functions: self_test() runs on the success path of every public init, only '
         'on an initialised non-NULL manager, and its failure sets IMB_ERR_SELFTEST; the PASS bit is cleared first and set only when every '
         'group passed; no KAT / process_job result is dropped; after every processed job the vector\'s expected tag/text is compared and a '
         'mismatch fails the KAT; the CORRUPT hook precedes processing and corrupts the input; START and exactly one PASS/FAIL surround each '
         'vector; every vector table is walked completely and announces the documented algorithms. Not decided: the KAT values, and that a '
         'corrupted input changes the output of the kernel (value-level).',
    design='§3 C20', note=TB)

CHECKS['C18'] = dict(
    technique='static analysis: abstract interpretation (entry-value / stack-offset / interval+stride domain, stack-slot tracking, callee summaries to fixpoint) over the exact CFG of every assembled object',
    text='Decides at object level, for all 686 C-callable assembly functions of the Linux build and on every CFG path to each of their '
         'exits (ret and tail jumps), that rsp and rbx, rbp, r12-r15 hold their entry values and the direction flag is clear; internal '
         'helpers that deliberately clobber callee-saved registers are summarised and their callers must save for them; no instruction '
         'in any object writes MXCSR or the x87 control word, and library C code has no inline asm or MXCSR intrinsic. The CFG is exact '
         '(no indirect jump or call exists; the check fails as broken if one appears). C code obeys the ABI by construction of the compiler. '
         'We would call this a proof were it not for the stated no-alias assumption (17 own-frame stores with an unbounded index are listed '
         'in the evidence). Not covered: Windows ABI paths, avx2_t4 assembly (cannot be assembled by the installed nasm).',
    design='§3 C18', note=TB_ASM)

CHECKS['C05'] = dict(
    technique='static analysis: path-sensitive typestate over the clang CFG of the ring functions (load earliest / status test / advance / return), ownership and dominance rules, sibling skeleton comparison; CFG reachability with the normalisation blocks removed plus reaching definitions (ring normalisation); dominating status tests on custom-stage flush handlers',
    text='Decides structural necessary conditions of the in-order queue on every path of the queue functions of all nine variant TUs: who '
         'may write the ring offsets and how; the earliest job is handed back only after a COMPLETED test or forced completion and with '
         'exactly one advance (no lost, duplicated or partial job on any path of submit / flush / get-completed / burst submit / burst '
         'flush); the empty marker protocol; a full queue completes the oldest job; completion loops end only on COMPLETED; job-API and '
         'burst-API siblings agree. The full FIFO/accounting claim over all call histories is an inductive invariant over ring offsets '
         'and is NOT decided.',
    design='§3 C05', note=TB)

CHECKS['C06'] = dict(
    technique='static analysis: exhaustive evaluation of the dispatch tables by constant propagation through the dispatch functions; name-token agreement; guard-catalogue extraction of the accepted set; dominating status tests on custom-stage flush handlers',
    text='Decides the finite suite matrix cell by cell, for all nine variant TUs: table geometry and the index arithmetic shared by '
         'set_cipher_suite_id, the job API and the burst CALL_* readers; for each of the 2x256 cipher and 2x50 hash table cells that '
         'validation accepts, the kernels reached under constant propagation of (mode, key size) carry the family of the named mode, the '
         'key size of the job and the direction of the table half; the accepted (mode, key length) sets extracted from both validators agree '
         'and AEAD pairings are enforced in both directions; stage bits; chain order; a cell that parks jobs in an out-of-order manager '
         'flushes the same manager. exhaustive over the table cells. Not decided: that the kernel behind a correct cell computes the '
         'named algorithm (C01-C03).',
    design='§3 C06', note=TB + '; reasoned vocabularies: family tokens per enumerator, EXTRA tokens per mode, one-sided pairing list')

CHECKS['C15'] = dict(
    technique='static analysis: call-graph coverage of reset functions, record-layout agreement (ASTRecordLayout), constant lane arguments vs handled cases, must-first-effect rule on each reset function',
    text='Decides for every variant that each out-of-order manager the variant can park jobs in is reset, with the reset function, the '
         'allocation table and the kernels agreeing on its type and lane count; that every reset function first clears the whole manager '
         'up to road_block (no residue of earlier jobs); and that init with reset re-establishes the ring and binds all handler slots, so a '
         'manager re-initialised to another variant behaves as that variant. Not decided: state kept outside the manager block (C17 inventory).',
    design='§3 C15', note=TB)
CHECKS['C16'] = dict(
    technique='static analysis: exhaustiveness of pointer re-derivation and handler re-binding with constant propagation of reset_mgrs; value classification of every store into shared records (C AST) and of every image-address store (asm abstract interpretation)',
    text='Decides the structural conditions that make the manager block self-contained and relocatable with respect to the library image: '
         'every *_ooo pointer is re-derived on both paths of imb_set_pointers_mb_mgr; the re-attach path re-binds every handler slot of '
         'every variant of the recorded architecture while touching neither the out-of-order managers nor the ring; no function/global/'
         'string address or process-local handle is stored into manager, out-of-order manager or job storage by C code, and no assembly '
         'function stores a rip-relative image address to non-stack memory. The dynamic claim (in-flight jobs complete correctly after '
         're-attach) is NOT decided.',
    design='§3 C16', note=TB_ASM)
CHECKS['C08'] = dict(
    technique='static analysis: name-token agreement of ~2400 bindings over all variant TUs; dominance-based feature-mask coverage on every path to a variant init; constant evaluation of the CPU-flag macros; ISA classification of every reachable instruction of the assembled routines against the variant feature mask',
    text='Decides necessary conditions for variant equivalence that the tests cannot reach (six of nine variants never execute on this '
         'host): every macro->kernel binding and handler assignment agrees in key size / digest / direction / operation; every handler slot '
         'is bound in every variant; a variant init is reachable only under feature tests covering its IMB_CPUFLAGS mask, failing edges '
         'report IMB_ERR_MISSING_CPUFLAGS_INIT_MGR or fall through to a weaker variant, types are tried in descending order, and the '
         'SHANI/GFNI-off flags clear exactly their bits; self-test only after successful init; ISA containment: every assembly routine reachable '
         'from a variant TU (called or bound, transitively through assembly callees) uses only instruction-set extensions (classified from '
         'encoding, mnemonic and operand width) whose IMB_FEATURE bits the variant requires or a dominating feature test establishes; '
         'object-level clone / constant-width / constant-table-copy consistency of the kernels; the two arms of an `if` that call the same routines up to '
         'instruction-set tokens (_gfni/_no_gfni, ...) take the same nested decisions; the all-lanes flag of the multi-lane ZUC-EIA3 C routines is read at every short/full round choice. NOT decided: bit-equality of different kernels for the same '
         'algorithm; instructions emitted by the C compiler.',
    design='§3 C08', note=TB)

_NOTVAL = ('The property proper (output equals the published algorithm for all inputs) is a value-level claim about hand-written SIMD '
           'and is NOT decided by this check; only the named structural necessary condition is.')
_DEV = ' Added object-level consistency rules over the assembled kernels of this family (none decides the algorithm, each is a necessary condition that one dropped or altered line violates): key-size siblings differ only in round-dependent instructions; the constants of one increment table are added with one element width within a function; unsigned tests of a byte counter against one near-overflow constant agree on strictness within a function; no routine computes more never-read values or reads more never-defined registers than on the reference tree (per-routine counts of the reference tree); the copies of one named constant table kept in three or more assembly units agree up to replication to the vector width, alignment padding and extension (a copy standing alone is a deviant).'

CHECKS['C01'] = dict(
    technique='static analysis: binding/dispatch agreement (name tokens of resolved callees under constant propagation of mode and key size); clone / contradiction / definition-use deviance rules over the assembled kernels (exact CFG, liveness and must-defined dataflow); byte-order typestate of vector registers over the exact CFG of the kernels; reaching-stores dataflow (split stores); element-insert ladder contradiction rule',
    text=_NOTVAL + ' Decided: in each of the nine variant TUs (six never executed by the tests on this host) every accepted cipher table cell '
         'dispatches to kernels carrying the named mode, key size and direction, jobs are flushed from the manager they were parked in, and '
         'every cipher macro->kernel binding agrees in key size/direction.' + _DEV + ' A wrong constant applied consistently, or a reordered data flow inside one kernel, stays invisible.',
    design='§3 C01-C03', note=TB)
CHECKS['C02'] = dict(
    technique='static analysis: binding/dispatch agreement for hash/MAC/CRC kernels; clone and definition-use deviance rules over the assembled kernels; symbolic-interval dataflow and shape rules over the C padding routines; byte-order typestate and reaching-stores dataflow over the assembled kernels; layout rule for padding written in assembly (marker offset vs length field, object code)',
    text=_NOTVAL + ' Decided: every hash table cell of every variant dispatches algorithm i to kernels of that algorithm and digest size (HMAC '
         'and plain kept apart), with submit/flush on the same out-of-order manager, and hash bindings agree in digest/key size/operation.' + _DEV + ' The SHA padding built in C (one-shot functions and C multi-buffer SHA managers) puts 0x80 directly behind the copied tail, re-establishes a re-used scratch block from zero (symbolic intervals), stores the length once as bytes*8 at <block multiple>-8, and all sites agree on the extra-block test `tail >= blk_size - pad_size`.' + ' Multi-lane ZUC-EIA3 C routines that keep an all-lanes-end-together flag read it wherever they choose, once for all lanes, between a short and a full keystream round.',
    design='§3 C01-C03', note=TB)
CHECKS['C03'] = dict(
    technique='static analysis: binding/dispatch agreement for AEAD and combined modes; clone / contradiction / definition-use deviance rules over the assembled kernels; byte-order typestate and reaching-stores dataflow over the assembled kernels; element-insert ladder contradiction rule',
    text=_NOTVAL + ' Decided: for GCM, GCM-SGL, CCM, ChaCha20-Poly1305(-SGL), SNOW-V-AEAD, SM4-GCM, DOCSIS-BPI and PON both table halves of every '
         'variant dispatch the accepted (mode, key) to kernels of that mode, key size and direction; paired hash algorithms reach their own kernels.' + _DEV + ' C AEAD code (ChaCha20-Poly1305 one-shot/SGL/direct, SM4-GCM, SNOW-V-AEAD) feeds the authenticator and its scratch block from the output buffer after the cipher call on encrypt and from the input buffer before it on decrypt (the tag is defined over the ciphertext).',
    design='§3 C01-C03', note=TB)
CHECKS['C09'] = dict(
    technique='static analysis: constant propagation through each burst helper and comparison of the reached kernel set with the job-API table cell; CFG rules for COMPLETED hand-back',
    text='Decides that the entry points share one dispatch, one validation and one kernel set: each synchronous cipher/AEAD burst helper of every '
         'variant validates with the (mode, direction) whose kernels it then runs, per key size reaches only kernels the job-API cell of the same '
         '(mode, key, direction) reaches; the asynchronous burst API indexes the same tables by suite id and rejects a stale suite id; burst calls '
         'hand back only COMPLETED jobs; every variant binds every entry point. The SHA padding built in C (one-shot functions and C multi-buffer SHA managers) puts 0x80 directly behind the copied tail, re-establishes a re-used scratch block from zero (symbolic intervals), stores the length once as bytes*8 at <block multiple>-8, and all sites agree on the extra-block test. C AEAD code feeds the authenticator from the output buffer after the cipher call on encrypt and from the input buffer before it on decrypt, in the one-shot, SGL and direct-API functions alike. NOT decided: output equality between job-API kernels and the '
         'different symbols behind the direct API (value-level).',
    design='§3 C09', note=TB)
CHECKS['C11'] = dict(
    technique='static analysis: constant propagation of the algorithm selector through imb_hmac_ipad_opad; binding agreement of helper slots; byte-interval coverage of the IV generators; symbolic first-result expressions of the key pre-computation routines compared between architecture siblings',
    text='NOT decided: the key material values. Decided (selection clauses): for every accepted HMAC algorithm the over-long test, substitute '
         'length, key hash, one-block function and 0x36/0x5c pads belong to the same algorithm, HMAC-MD5 keys over one block are refused '
         'before any hashing, and the key-helper slots of all nine variants are bound to kernels of the same algorithm and key size; the SHA one-shot '
         'function that hashes over-long keys builds its padding as FIPS 180 lays it out (marker, zero fill from a clean block, bit length, extra-block test).',
    design='§3 C11', note=TB)

CHECKS['C04'] = dict(
    technique='static analysis: CFG typestate on the C multi-buffer managers; typed abstract interpretation of the assembled managers (stores classified by C record layout; provenance of lane-minimum values); guard-catalogue bounds vs 16-bit lane lengths; definition-use deviance rules',
    text='NOT decided: that SIMD lanes never influence each other and that scheduling arithmetic is right for every occupancy (value-level). '
         'Decided (lane bookkeeping): the C SHA managers pop/park on submit and push/clear/complete on every completed return, neutralise idle '
         'lanes on flush, and the three width-siblings agree; each of the ~160 assembled out-of-order manager routines with a job_in_lane array '
         'that completes a job also clears the slot and returns the lane, submit parks the job argument and pops a lane, and the stage bit is the '
         'manager\'s own; every mode/algorithm parked in a manager with 16-bit lane lengths has a validation bound <= 0xFFFF (this rule found K12); '
         'in every manager routine the block count handed to the multi-lane kernel and the vector subtracted from all lane lengths derive from the '
         'same lane-minimum search on every path (provenance domain); manager routines hold no more never-read values / never-defined reads than on the reference tree; the copies of one named constant table (lane masks, byte swaps) in three or more manager units agree; multi-lane ZUC-EIA3 C routines give a shortened last keystream round only when their all-lanes-end-together flag is set (a longer lane must not be affected by a shorter co-scheduled one).',
    design='§3 C04', note=TB_ASM)
CHECKS['C13'] = dict(
    technique='static analysis: CFG must-scrub typestate on C locals, arch-sibling agreement, zero/non-zero abstract interpretation of vector registers at every exit of every assembled function, typed zero-store coverage of manager fields against a reference baseline; symbolic lane-mask provenance (opmask / general registers carry the constructions they were OR-ed from) for wipe-covers-copy in the lane-mask ladders; repeated-store rule with an assembled fixture',
    text='Partial; each clause is a necessary condition. C side: locals the code scrubs are scrubbed on every path from their uses to every return '
         '(found K11), arch siblings scrub the same locals (found K9), register-scrub macros cover all returns after kernel calls. Object level: all '
         '247 exported asm functions return with every vector register zero on every path except 33 individually reasoned exceptions (found K5); 281 '
         'further C-callable kernels that are vector-clean on the reference tree stay clean; per manager routine the field-relative byte ranges zeroed '
         'on the reference tree (keys, IVs, digests, lane slots) are still zeroed; every assembled routine zeroes at least as many bytes of its own '
         'stack frame as on the reference tree; whole-manager clears and road blocks. NOT decided: absence of secrets in GPRs, in frame bytes the '
         'reference tree does not clear, and in manager storage in general (needs secret-taint with declassification of tags/ciphertext).',
    design='§3 C13', note=TB_ASM + '; baselines imbv/data/vec_clean_baseline.json and scrub_baseline.json hold semantic facts of the reference tree (function names, field-relative ranges), no source text')
CHECKS['C19'] = dict(
    technique='static analysis: AST table-ownership rule; field-sensitive interprocedural secret-taint over the C code of the five SAFE_LOOKUP units; object-level taint of the 13 assembly lookup primitives',
    text='Decides for the C implementations of DES/3DES/DOCSIS-DES, KASUMI and SNOW3G (SAFE_LOOKUP build): every use of a constant table is a '
         'constant-time lookup primitive, a full-width 16-byte LUT load, a constant or reasoned public index (gathers and data subscripts are '
         'violations); scalar lookups scan the whole table; no branch / loop / ?: condition, subscript or copy size is reachable by taint from the key '
         'schedules (type-based sources; external caller buffers are public); the lookup primitives never let the index reach an address or a branch. '
         'Scope: the multi-buffer SNOW3G/ZUC assembly managers and DES AVX512 assembly are not analysed; compiler-introduced branches are not visible at this level.',
    design='§3 C19', note=TB_ASM + '; taint is flow-insensitive and context-insensitive (over-approximate); output written to caller-supplied buffers is treated as public')

CHECKS['C07'] = dict(
    technique='static analysis: abstract evaluation of the validation guards over a finite tag-length domain; abstract interpretation of the assembled '
              'manager routines with a memory-cell constraint domain (comparisons and bit tests of job->auth_tag_output_len_in_bytes) bounding every '
              'constant-extent store through job->auth_tag_output; AST call-site rule pairing the tag pointer with its length; object-code interval rule (a length bounded by a compare never has a larger constant subtracted); tail-copy threshold rule',
    text='PARTIAL - the property proper is NOT decided: reads and writes of message, key, IV and AAD ranges, placement against unmapped pages, '
         'source-intact and in-place == out-of-place all quantify over addresses computed from run-time lengths inside hand-written SIMD loops, for '
         'which no sound static argument is in reach here. Decided is the one clause visible in code shape, "the tag buffer of exactly the requested '
         'tag length": the accepted tag lengths of every hash algorithm are extracted from the validator of every variant; in every assembled routine '
         'the hash dispatch reaches, each store of constant extent through a pointer loaded from job->auth_tag_output lies within the smallest accepted '
         'tag length compatible with the comparisons / bit tests of that job\'s tag-length field which hold at the store on every path; C call sites that '
         'hand the tag pointer to a callee taking a tag length pass that job\'s tag length; routines whose vector stores to one destination family '
         'are all masked on the reference tree keep them masked. One structural clause of in-place == out-of-place is decided too: C AEAD code (ChaCha20-Poly1305 one-shot/SGL/direct, SM4-GCM, SNOW-V-AEAD) feeds the authenticator and its scratch block from the output buffer after the cipher call on encrypt and from the input buffer before it on decrypt (the tag is defined over the ciphertext). Masked, byte-granular and run-time-indexed tag stores, tag '
         'stores of cipher-side AEAD routines and of algorithms whose tag guard is conditional are counted, not decided.',
    design='§3 C07', note=TB_ASM + '; ZUC-256 EIA3 routines are a reasoned exception (one manager per tag size)')

NOT_APPLICABLE = {
    'C10': 'invariance under re-segmentation is an algebraic property of carried partial-block state inside asm/C '
           'arithmetic; no clause of it is visible in code shape; the carried state (partial-block length, buffered bytes, running GHASH/Poly1305 accumulator, counter) is updated by run-time arithmetic inside assembly and C whose agreement with the one-shot result for every partition is a value property, which no rule of this family can bound - declined rather than claimed through a proxy',
}
UNDER_CONSTRUCTION = 'check not yet built in this round (planned in DESIGN.md §3); not claimed'


# clauses added by the discipline / sibling rules of DESIGN.md section 3a (appended to the text of each check that reports them)
EXTRA = {
    'C01': ' Further structural clauses (DESIGN 3a): no C cipher routine reads through output-derived pointers in more places than the reference tree (O1); '
           'copies of one routine within a file agree (X5); field-by-field record copies are index/field consistent (X4); C functions named for a key size / '
           'direction call only routines of that key size / direction (K1). Element-insert ladders that assemble IV / nonce vectors keep the index/offset relation of their neighbours (N6); no computed vector value is stored twice unchanged to adjacent places (W6). job->src is used with its start offset (O2). Byte-order typestate: no vector register is read where it can arrive both byte-reflected and not (N7).',
    'C02': ' Further clauses (DESIGN 3a): wrapper-constant matrix of the per-architecture hash entry points (X3), copy siblings (X5), field copies (X4). Insert ladders (N6); no computed vector value is stored twice unchanged to adjacent places - the second part of a split digest / tag store comes from another value (W6). Assembly padding: the length field goes into the block holding the 0x80 marker exactly when it fits behind it (P6). Byte-order typestate of vector registers (N7). The re-used padding block is overwritten from 0 up to the length field (P6). Unrolled per-lane sequences name every lane once: displacements of one instruction form run in arithmetic progression (N10).',
    'C03': ' Further clause (DESIGN 3a): key-size / direction tokens of C wrappers and manager slots agree with their callers (K1). Insert ladders of the CCM / GCM / ChaCha20-Poly1305 units (N6, decides the nonce byte placement of CCM block B0); split stores (W6). Byte-order typestate of vector registers (N7). Pending bytes kept in a context are flushed on a test of their own count (A2).',
    'C04': ' Further clauses (DESIGN 3a): lane association in 262 assembled multi-buffer routines - a vector stored through the pointer of lane m holds data of '
           'lane m only, followed through the transposition networks (unpack / shuffle / insert / extract modelled exactly on 32-bit slots, everything else '
           'element-wise; unknown values never reported), and a per-lane pointer is written back into the array element it came from (V1/V2; decides K16). Whole vectors of per-lane pointers are written back to the array and elements they were loaded from (V2 extended); unrolled per-lane sequences name every lane once (N10).',
    'C05': ' Further clauses (DESIGN 3a): a job is stamped BEING_PROCESSED on every path to the stage dispatch (Q7); contiguous-slot counts come from the ring '
           'offset they advance (Q9); the parameter guards of the queue and burst functions are those of the reference tree (Q8). A queue function that owns the empty-marker normalisation reaches every return through it or through a pure emptiness test (Q10). A flush handler that is given the job itself (custom stages) hands it back only if that stage was still to do (T11, decides K18).',
    'C06': ' Further clauses (DESIGN 3a): a stage handler is looked up from the suite id of the very job it is applied to, in the same expression (T7); '
           'assembly ORs single stage bits into job->status (J2); the burst guards, stale suite id included, are those of the reference tree (T9). A flush handler that is given the job itself (custom stages) hands it back only if that stage was still to do (T11, decides K18).',
    'C07': ' A second structural clause of in-place == out-of-place (DESIGN 3a, O1): no C routine reads its data through output-derived pointers in more '
           'places than on the reference tree; C digest writers copy the word count of the selected SHA variant (P5). Assembly tail copies of the last K bytes of a buffer are admitted only from length >= K (W4). A length bounded by `cmp r, K; jb/jbe` never has a constant above the bound subtracted from it (W7, decides K20).',
    'C08': ' Further clauses (DESIGN 3a): per-architecture versions of one function agree (X6); wrapper constants fit the file x algorithm matrix (X3); each '
           'variant records its own architecture in used_arch. One IMB_MGR slot is bound in all variants to the same routine up to instruction-set tokens (R1s); an architecture front-end selects a type-N variant only after testing that variant\'s whole feature mask (R3 select); insert ladders of all units (N6).',
    'C09': ' Further clauses (DESIGN 3a): job->src is used with its start offset by every entry point (O2), output-read discipline (O1), field copies (X4), '
           'handler lookup per job (T7).',
    'C11': ' Further clauses (DESIGN 3a): the 3GPP IV generators place BEARER / DIRECTION at the bit positions of the specifications and byte-swap COUNT / FRESH '
           'whole, the f9 / EIA3 generators XOR the direction bit (H7, a table of the specification\'s positions in the checker); key-size tokens of the GCM pre-computation wrappers (K1). Each IV generator defines every byte of its IV and copies the repeated half from the half the specification names (H8). The architecture versions of the GHASH / GCM key pre-computation compute HashKey<<1 mod poly by the same expression over loads and constants (N9). Every case of the over-long-key switch of imb_hmac_ipad_opad hashes the key over key_len (X8: case-sibling arguments).',
    'C13': ' Further clauses (DESIGN 3a): every C function scrubs at least as many distinct locals of each type as on the reference tree and whole-array scrubs '
           'cover the array (S11/S12); copies of one routine agree (X5). A flush routine wipes every lane place it copied key material into under a mask built from at least the same constructions as the copy mask (S13, lane-mask ladders of the x16 VAES managers). No routine issues the same store twice in a row (S14, decides K19); a one-hot lane mask OR-ed into a 16-lane wipe mask is moved with at least word width.',
    'C14': ' Further clauses (DESIGN 3a): a job is stamped BEING_PROCESSED before the stage dispatch on every path (J8); each failure keeps the error code the '
           'reference tree gives it (J9, the guard catalogue of C12); assembly never overwrites job->status with a single stage bit (J2).',
    'C15': ' Further clauses (DESIGN 3a): no manager is reset twice and the variants of one architecture reset the same managers (I1); every architecture init '
           'resets the error code before dispatching to a type init (I7); the per-architecture init functions agree (X6).',
    'C16': ' Further clause (DESIGN 3a): each variant records its own architecture in used_arch (P5).',
    'C20': ' Further clause (DESIGN 3a): each row of a self-test vector table carries one size token and a loop over one table reads no other (F7). Once IMB_ERR_SELFTEST is recorded nothing that resets the error code runs before the init returns (F1).',
    'C12': ' Further clause (DESIGN 3a): a synchronous burst helper named for a direction validates its jobs with that direction (V11).',
    'C17': ' Further clauses (DESIGN 3a): the per-manager half of the error code never depends on the process-wide half (G7); the session counter is advanced '
           'with a LOCKed read-modify-write (G8). Each process-wide object is written at one site of its writer (no clear-then-refill transient, G9); '
           'no library code decides on imb_get_errno() (G6).',
}
for _pid, _t in EXTRA.items():
    CHECKS[_pid]['text'] = CHECKS[_pid]['text'] + _t


def main():
    props = [json.loads(l)['id'] for l in open(os.path.join(VERIF, 'properties.jsonl'))]
    checks = []
    for pid in props:
        if pid not in CHECKS:
            continue
        c = CHECKS[pid]
        checks.append({
            'property_id': pid,
            'quick_cmd': './check %s --tier quick' % pid,
            'thorough_cmd': './check %s --tier thorough' % pid,
            'evidence_file': 'evidence/%s.json' % pid,
            'replay_cmd_template': './check %s --replay {path}' % pid,
            'engine': c.get('engine', 'imbv'),
            'level_claimed': {'category': 'other', 'text': c['text'], 'design_ref': c['design']},
            'level_note': c['note'],
            'technique': c['technique'],
        })
    na = []
    for pid in props:
        if pid in CHECKS:
            continue
        na.append({'property_id': pid, 'reason': NOT_APPLICABLE.get(pid, UNDER_CONSTRUCTION)})
    man = {
        'version': 1,
        'setup_cmd': './setup.sh',
        'hooks': {
            'guard': 'IMB_VERIF_STATIC',
            'enable': 'no hook is needed: the analyses read /repo sources and objects assembled from them; the guard '
                      'name is reserved and unused',
            'baseline_off_cmd': 'cmake --build /repo/_build -j16 && ctest --test-dir /repo/_build -j8 --timeout 900',
            'source_commits': [],
            'add_only': True,
        },
        'engines': [
            {'name': 'cfacts', 'path': 'tools/cfacts.cc',
             'serves_properties': sorted(CHECKS),
             'kind_free_text': 'clang-14 libTooling extractor: enums, record layouts, globals, tables, prototypes, and '
                               'per function the clang CFG with expression-tree events; rules in Python (imbv/rules)'},
            {'name': 'asmfacts', 'path': 'imbv/asmfacts.py',
             'serves_properties': [p for p in sorted(CHECKS) if p in ('C04', 'C13', 'C14', 'C16', 'C17', 'C18', 'C19', 'C08')],
             'kind_free_text': 'objects assembled with the compile database\'s nasm commands; exact CFG from objdump; '
                               'abstract interpretation (intervals/strides, stack slots, zeroness, provenance)'},
        ],
        'checks': checks,
        'not_applicable': na,
        'notes': 'Static analysis only: no registered check executes library code or calls a solver. Exit 2 = '
                 'analysis broken (anchor vanished / instance floor missed), never a pass. Tiers: every analysis is exhaustive over its '
                 'domain on every run; quick may reuse facts extracted from a byte-identical tree (content-hash keyed cache), thorough '
                 're-extracts everything from /repo. See DESIGN.md.',
    }
    with open(os.path.join(VERIF, 'MANIFEST.json'), 'w') as f:
        json.dump(man, f, indent=1)
    print('MANIFEST.json: %d checks, %d not_applicable' % (len(checks), len(na)))


if __name__ == '__main__':
    main()
