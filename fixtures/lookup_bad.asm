; fixtures for the C19 K-c taint engine
default rel
section .text
; uint32_t fx_lookup_direct(const void *table, uint32_t idx, uint32_t size): indexes the table directly -> must be flagged
global fx_lookup_direct:function
fx_lookup_direct:
        mov     eax, esi
        mov     eax, [rdi + rax*4]
        ret
; branches on the index -> must be flagged
global fx_lookup_branch:function
fx_lookup_branch:
        xor     eax, eax
        cmp     esi, 7
        jb      .small
        mov     eax, [rdi]
.small:
        ret
; constant-time scan: loop bound from size only, compare + masked select -> must NOT be flagged
global fx_lookup_scan:function
fx_lookup_scan:
        xor     eax, eax
        xor     ecx, ecx
.loop:
        mov     r8d, [rdi + rcx*4]
        xor     r9d, r9d
        cmp     ecx, esi
        sete    r9b
        neg     r9d
        and     r8d, r9d
        or      eax, r8d
        inc     ecx
        cmp     ecx, edx
        jne     .loop
        ret
