; positive fixtures for the C18 engine: each function below must be flagged (except fx_good)
default rel
section .text
global fx_clobber_rbx:function
fx_clobber_rbx:
        mov     rbx, rdi
        add     rbx, 1
        mov     rax, rbx
        ret
global fx_unbalanced:function
fx_unbalanced:
        push    r12
        test    rdi, rdi
        jz      .early
        pop     r12
        ret
.early:
        xor     eax, eax
        ret
global fx_std:function
fx_std:
        std
        mov     rcx, rdx
        rep movsb
        ret
global fx_ldmxcsr:function
fx_ldmxcsr:
        sub     rsp, 8
        mov     dword [rsp], 0x1f80
        ldmxcsr [rsp]
        add     rsp, 8
        ret
global fx_good:function
fx_good:
        push    rbx
        push    r12
        mov     rax, rsp
        sub     rsp, 64
        and     rsp, -64
        mov     [rsp + 8], rax
        mov     rbx, rdi
        xor     r12, r12
.loop:
        mov     [rsp + r12*8 + 16], rbx
        inc     r12
        cmp     r12, 4
        jne     .loop
        mov     rsp, [rsp + 8]
        pop     r12
        pop     rbx
        ret
