#!/bin/sh
# builds the extractors from files on disk only (offline)
set -e
cd "$(dirname "$0")"
mkdir -p build evidence
if [ ! -x build/cfacts ] || [ tools/cfacts.cc -nt build/cfacts ]; then
  clang++ $(llvm-config-14 --cxxflags) -fno-rtti -O1 tools/cfacts.cc -o build/cfacts \
    /usr/lib/llvm-14/lib/libclang-cpp.so.14 /usr/lib/llvm-14/lib/libLLVM-14.so
fi
python3 -m compileall -q imbv >/dev/null 2>&1 || true
echo setup-ok
